// ops_scratch_sweep.rs
//
// Placement : copy this file to `poulpy-cpu-ref/tests/ops_scratch_sweep.rs`
//             (an integration test of the `poulpy-cpu-ref` crate; it only uses the
//             public API of poulpy-hal / poulpy-core / poulpy-cpu-ref).
// Run       : cargo test -p poulpy-cpu-ref --test ops_scratch_sweep --offline -j 6 -- --nocapture --test-threads=4
//
// Property under test: "a scratch buffer of EXACTLY the number of bytes returned by the
// companion `*_tmp_bytes` query is sufficient for every admissible argument shape".
//
// Every case allocates `ScratchOwned::alloc(<op>_tmp_bytes(..))`, runs the operation inside
// `catch_unwind`, and records the panic (message + shape). Each test prints a summary
// (number of cases, number of failures, smallest failing shape, the distinct panic messages with
// digits masked) and fails if at least one case panicked.
//
// Operand contents are small normalised values: correctness of the products is NOT checked here,
// only panics / out-of-space.

use std::{
    cell::Cell,
    collections::BTreeMap,
    panic::{AssertUnwindSafe, catch_unwind},
    sync::Once,
};

use poulpy_core::{
    GLWEMulConst, GLWEMulPlain, GLWENormalize, GLWERotate, GLWEShift, GLWETensoring,
    layouts::{
        Dnum, Dsize, GLWE, GLWEPlaintext, GLWETensor, GLWETensorKeyLayout, GLWETensorKeyPrepared, GLWETensorKeyPreparedFactory,
        LWEInfos,
    },
};
use poulpy_cpu_ref::{FFT64Ref, NTT120Ref};
use poulpy_hal::{
    api::{CnvPVecAlloc, Convolution, ModuleNew, ScratchOwnedAlloc, ScratchOwnedBorrow, VecZnxBigAlloc, VecZnxDftAlloc},
    layouts::{CnvPVecL, CnvPVecR, DeviceBuf, FillUniform, Module, ScratchOwned, VecZnx, VecZnxBig, VecZnxDft},
    source::Source,
};

thread_local! {
    static QUIET: Cell<bool> = const { Cell::new(false) };
}
static HOOK: Once = Once::new();

fn install_hook() {
    HOOK.call_once(|| {
        let default = std::panic::take_hook();
        std::panic::set_hook(Box::new(move |info| {
            if !QUIET.with(|q| q.get()) {
                default(info);
            }
        }));
    });
}

struct Report {
    op: &'static str,
    be: &'static str,
    cases: usize,
    failures: Vec<(String, String)>,
}

impl Report {
    fn new(op: &'static str, be: &'static str) -> Self {
        install_hook();
        Self {
            op,
            be,
            cases: 0,
            failures: Vec::new(),
        }
    }

    fn case<F: FnOnce()>(&mut self, shape: impl Fn() -> String, f: F) {
        self.cases += 1;
        QUIET.with(|q| q.set(true));
        let r = catch_unwind(AssertUnwindSafe(f));
        QUIET.with(|q| q.set(false));
        if let Err(e) = r {
            let msg = if let Some(s) = e.downcast_ref::<String>() {
                s.clone()
            } else if let Some(s) = e.downcast_ref::<&str>() {
                s.to_string()
            } else {
                "<non-string panic>".to_string()
            };
            self.failures.push((shape(), msg));
        }
    }

    fn finish(self) {
        println!(
            "\n=== [{}] {}: {} cases, {} failures",
            self.be,
            self.op,
            self.cases,
            self.failures.len()
        );
        if let Some((shape, msg)) = self.failures.first() {
            println!("    smallest failing shape: {shape}\n      -> {msg}");
            let mut kinds: BTreeMap<String, (usize, String, String)> = BTreeMap::new();
            for (shape, msg) in &self.failures {
                let key: String = mask_digits(msg);
                kinds.entry(key).or_insert((0, shape.clone(), msg.clone())).0 += 1;
            }
            for (key, (cnt, shape, msg)) in &kinds {
                println!("    kind x{cnt}: {key}\n        first: {shape}\n        msg  : {msg}");
            }
        }
        assert!(
            self.failures.is_empty(),
            "[{}] {}: {} of {} cases panicked with a scratch of exactly *_tmp_bytes",
            self.be,
            self.op,
            self.failures.len(),
            self.cases
        );
    }
}

fn mask_digits(s: &str) -> String {
    let mut out = String::new();
    let mut prev_digit = false;
    for c in s.chars() {
        if c.is_ascii_digit() {
            if !prev_digit {
                out.push('#');
            }
            prev_digit = true;
        } else {
            out.push(c);
            prev_digit = false;
        }
    }
    out
}

/// Bit offsets 0, 1 and every value around the multiples of `base2k` such that the limb part of the
/// offset (`(off / base2k).saturating_sub(1)`) leaves at least one limb of the `full_size`-limb product.
fn offsets(base2k: usize, full_size: usize) -> Vec<usize> {
    let mut v: Vec<usize> = vec![0, 1];
    for m in 1..=full_size {
        v.push(m * base2k - 1);
        v.push(m * base2k);
        v.push(m * base2k + 1);
    }
    v.push((full_size + 1) * base2k - 1);
    v.sort();
    v.dedup();
    v.retain(|&off| (off / base2k).saturating_sub(1) < full_size);
    v
}

const NS: [usize; 3] = [8, 16, 64];
/// (input base2k, output base2k)
const B2K_PAIRS: [(usize, usize); 4] = [(12, 12), (12, 11), (11, 12), (17, 12)];

fn consts(len: usize, base2k: usize) -> Vec<i64> {
    (0..len)
        .map(|i| ((i as i64 * 37 + 11) % (1i64 << (base2k - 1))) - (1i64 << (base2k - 2)))
        .collect()
}

macro_rules! sweep_backend {
    ($modname:ident, $be:ty, $bename:expr) => {
        mod $modname {
            use super::*;
            type BE = $be;
            const BEN: &str = $bename;

            fn glwe(n: usize, base2k: usize, size: usize, rank: usize, src: &mut Source) -> GLWE<Vec<u8>> {
                let mut x = GLWE::alloc(n.into(), base2k.into(), (size * base2k).into(), rank.into());
                x.data_mut().fill_uniform(base2k, src);
                x
            }

            fn pt(n: usize, base2k: usize, size: usize, src: &mut Source) -> GLWEPlaintext<Vec<u8>> {
                let mut x = GLWEPlaintext::alloc(n.into(), base2k.into(), (size * base2k).into());
                x.data_mut().fill_uniform(base2k, src);
                x
            }

            // ------------------------------------------------------------------ HAL convolutions

            #[test]
            fn hal_cnv_by_const_apply() {
                let mut rep = Report::new("hal cnv_by_const_apply", BEN);
                let mut src = Source::new([1u8; 32]);
                for n in NS {
                    let module = Module::<BE>::new(n as u64);
                    for a_size in 1..=5usize {
                        for b_size in 1..=4usize {
                            let mut a: VecZnx<Vec<u8>> = VecZnx::alloc(n, 2, a_size);
                            a.fill_uniform(12, &mut src);
                            let b = consts(b_size, 12);
                            for res_size in 1..=a_size + b_size + 1 {
                                let mut res: VecZnxBig<DeviceBuf<BE>, BE> = module.vec_znx_big_alloc(1, res_size);
                                for cnv_offset in 0..res_size {
                                    rep.case(
                                        || format!("n={n} a_size={a_size} b_len={b_size} res_size={res_size} cnv_offset={cnv_offset}"),
                                        || {
                                            // documented order: (cnv_offset, res_size, a_size, b_size)
                                            let bytes = module.cnv_by_const_apply_tmp_bytes(cnv_offset, res_size, a_size, b_size);
                                            let mut scratch = ScratchOwned::<BE>::alloc(bytes);
                                            module.cnv_by_const_apply(cnv_offset, &mut res, 0, &a, 1, &b, scratch.borrow());
                                        },
                                    );
                                }
                            }
                        }
                    }
                }
                rep.finish();
            }

            fn hal_cnv_dft(pairwise: bool) {
                let mut rep = Report::new(
                    if pairwise {
                        "hal cnv_pairwise_apply_dft"
                    } else {
                        "hal cnv_apply_dft"
                    },
                    BEN,
                );
                let mut src = Source::new([2u8; 32]);
                for n in NS {
                    let module = Module::<BE>::new(n as u64);
                    for a_size in 1..=5usize {
                        for b_size in 1..=5usize {
                            let mut a: VecZnx<Vec<u8>> = VecZnx::alloc(n, 2, a_size);
                            let mut b: VecZnx<Vec<u8>> = VecZnx::alloc(n, 2, b_size);
                            a.fill_uniform(12, &mut src);
                            b.fill_uniform(12, &mut src);
                            let mut a_prep: CnvPVecL<DeviceBuf<BE>, BE> = module.cnv_pvec_left_alloc(2, a_size);
                            let mut b_prep: CnvPVecR<DeviceBuf<BE>, BE> = module.cnv_pvec_right_alloc(2, b_size);
                            let mut sp = ScratchOwned::<BE>::alloc(
                                module
                                    .cnv_prepare_left_tmp_bytes(a_size, a_size)
                                    .max(module.cnv_prepare_right_tmp_bytes(b_size, b_size)),
                            );
                            module.cnv_prepare_left(&mut a_prep, &a, !0i64, sp.borrow());
                            module.cnv_prepare_right(&mut b_prep, &b, !0i64, sp.borrow());
                            for res_size in 1..=a_size + b_size + 1 {
                                let mut res: VecZnxDft<DeviceBuf<BE>, BE> = module.vec_znx_dft_alloc(1, res_size);
                                for cnv_offset in 0..res_size {
                                    if pairwise {
                                        for (i, j) in [(0usize, 1usize), (1, 1)] {
                                            rep.case(
                                                || {
                                                    format!(
                                                        "n={n} a_size={a_size} b_size={b_size} res_size={res_size} cnv_offset={cnv_offset} i={i} j={j}"
                                                    )
                                                },
                                                || {
                                                    // documented order: (cnv_offset, res_size, a_size, b_size)
                                                    let bytes =
                                                        module.cnv_pairwise_apply_dft_tmp_bytes(cnv_offset, res_size, a_size, b_size);
                                                    let mut scratch = ScratchOwned::<BE>::alloc(bytes);
                                                    module.cnv_pairwise_apply_dft(
                                                        cnv_offset,
                                                        &mut res,
                                                        0,
                                                        &a_prep,
                                                        &b_prep,
                                                        i,
                                                        j,
                                                        scratch.borrow(),
                                                    );
                                                },
                                            );
                                        }
                                    } else {
                                        rep.case(
                                            || format!("n={n} a_size={a_size} b_size={b_size} res_size={res_size} cnv_offset={cnv_offset}"),
                                            || {
                                                let bytes = module.cnv_apply_dft_tmp_bytes(cnv_offset, res_size, a_size, b_size);
                                                let mut scratch = ScratchOwned::<BE>::alloc(bytes);
                                                module.cnv_apply_dft(cnv_offset, &mut res, 0, &a_prep, 1, &b_prep, 0, scratch.borrow());
                                            },
                                        );
                                    }
                                }
                            }
                        }
                    }
                }
                rep.finish();
            }

            #[test]
            fn hal_cnv_apply_dft() {
                hal_cnv_dft(false)
            }

            #[test]
            fn hal_cnv_pairwise_apply_dft() {
                hal_cnv_dft(true)
            }

            // ------------------------------------------------------------------ glwe_mul_const

            #[test]
            fn glwe_mul_const() {
                let mut rep = Report::new("glwe_mul_const", BEN);
                let mut src = Source::new([3u8; 32]);
                for n in NS {
                    let module = Module::<BE>::new(n as u64);
                    for rank in 1..=2usize {
                        for (a_b2k, res_b2k) in B2K_PAIRS {
                            for a_size in 1..=5usize {
                                let a = glwe(n, a_b2k, a_size, rank, &mut src);
                                for res_size in 1..=5usize {
                                    let mut res = glwe(n, res_b2k, res_size, rank, &mut src);
                                    for b_len in 1..=4usize {
                                        let b = consts(b_len, a_b2k);
                                        for off in offsets(a_b2k, a_size + b_len) {
                                            rep.case(
                                                || {
                                                    format!(
                                                        "n={n} rank={rank} a(base2k={a_b2k},size={a_size}) res(base2k={res_b2k},size={res_size}) b.len={b_len} cnv_offset={off}"
                                                    )
                                                },
                                                || {
                                                    let bytes = module.glwe_mul_const_tmp_bytes(&res, &a, b.len());
                                                    let mut scratch = ScratchOwned::<BE>::alloc(bytes);
                                                    module.glwe_mul_const(off, &mut res, &a, &b, scratch.borrow());
                                                },
                                            );
                                        }
                                    }
                                }
                            }
                        }
                    }
                }
                rep.finish();
            }

            #[test]
            fn glwe_mul_const_assign() {
                let mut rep = Report::new("glwe_mul_const_assign", BEN);
                let mut src = Source::new([4u8; 32]);
                for n in NS {
                    let module = Module::<BE>::new(n as u64);
                    for rank in 1..=2usize {
                        for b2k in [11usize, 12, 17] {
                            for res_size in 1..=5usize {
                                for b_len in 1..=4usize {
                                    let b = consts(b_len, b2k);
                                    for off in offsets(b2k, res_size + b_len) {
                                        let mut res = glwe(n, b2k, res_size, rank, &mut src);
                                        rep.case(
                                            || format!("n={n} rank={rank} res(base2k={b2k},size={res_size}) b.len={b_len} cnv_offset={off}"),
                                            || {
                                                let bytes = module.glwe_mul_const_tmp_bytes(&res, &res, b.len());
                                                let mut scratch = ScratchOwned::<BE>::alloc(bytes);
                                                module.glwe_mul_const_assign(off, &mut res, &b, scratch.borrow());
                                            },
                                        );
                                    }
                                }
                            }
                        }
                    }
                }
                rep.finish();
            }

            // ------------------------------------------------------------------ glwe_mul_plain

            #[test]
            fn glwe_mul_plain() {
                let mut rep = Report::new("glwe_mul_plain", BEN);
                let mut src = Source::new([5u8; 32]);
                for n in NS {
                    let module = Module::<BE>::new(n as u64);
                    for rank in 1..=2usize {
                        for (ab_b2k, res_b2k) in B2K_PAIRS {
                            for a_size in 1..=5usize {
                                let a = glwe(n, ab_b2k, a_size, rank, &mut src);
                                for b_size in 1..=5usize {
                                    let b = pt(n, ab_b2k, b_size, &mut src);
                                    for res_size in 1..=5usize {
                                        let mut res = glwe(n, res_b2k, res_size, rank, &mut src);
                                        for off in offsets(ab_b2k, a_size + b_size) {
                                            rep.case(
                                                || {
                                                    format!(
                                                        "n={n} rank={rank} a(base2k={ab_b2k},size={a_size}) b(size={b_size}) res(base2k={res_b2k},size={res_size}) cnv_offset={off}"
                                                    )
                                                },
                                                || {
                                                    let bytes = module.glwe_mul_plain_tmp_bytes(&res, &a, &b);
                                                    let mut scratch = ScratchOwned::<BE>::alloc(bytes);
                                                    module.glwe_mul_plain(
                                                        off,
                                                        &mut res,
                                                        &a,
                                                        a_size * ab_b2k,
                                                        &b,
                                                        (b_size - 1) * ab_b2k + 1,
                                                        scratch.borrow(),
                                                    );
                                                },
                                            );
                                        }
                                    }
                                }
                            }
                        }
                    }
                }
                rep.finish();
            }

            #[test]
            fn glwe_mul_plain_assign() {
                let mut rep = Report::new("glwe_mul_plain_assign", BEN);
                let mut src = Source::new([6u8; 32]);
                for n in NS {
                    let module = Module::<BE>::new(n as u64);
                    for rank in 1..=2usize {
                        for b2k in [11usize, 12, 17] {
                            for res_size in 1..=5usize {
                                for a_size in 1..=5usize {
                                    let a = pt(n, b2k, a_size, &mut src);
                                    for off in offsets(b2k, res_size + a_size) {
                                        let mut res = glwe(n, b2k, res_size, rank, &mut src);
                                        rep.case(
                                            || format!("n={n} rank={rank} res(base2k={b2k},size={res_size}) a(size={a_size}) cnv_offset={off}"),
                                            || {
                                                let bytes = module.glwe_mul_plain_tmp_bytes(&res, &res, &a);
                                                let mut scratch = ScratchOwned::<BE>::alloc(bytes);
                                                module.glwe_mul_plain_assign(
                                                    off,
                                                    &mut res,
                                                    res_size * b2k,
                                                    &a,
                                                    (a_size - 1) * b2k + 1,
                                                    scratch.borrow(),
                                                );
                                            },
                                        );
                                    }
                                }
                            }
                        }
                    }
                }
                rep.finish();
            }

            // ------------------------------------------------------------------ glwe_tensor_*

            fn tensor_apply(add_assign: bool) {
                let mut rep = Report::new(
                    if add_assign {
                        "glwe_tensor_apply_add_assign"
                    } else {
                        "glwe_tensor_apply"
                    },
                    BEN,
                );
                let mut src = Source::new([7u8; 32]);
                for n in NS {
                    let module = Module::<BE>::new(n as u64);
                    for rank in 1..=2usize {
                        for (ab_b2k, res_b2k) in B2K_PAIRS {
                            for a_size in 1..=5usize {
                                let a = glwe(n, ab_b2k, a_size, rank, &mut src);
                                for b_size in 1..=5usize {
                                    let b = glwe(n, ab_b2k, b_size, rank, &mut src);
                                    for res_size in 1..=5usize {
                                        let mut res: GLWETensor<Vec<u8>> =
                                            GLWETensor::alloc(n.into(), res_b2k.into(), (res_size * res_b2k).into(), rank.into());
                                        for off in offsets(ab_b2k, a_size + b_size) {
                                            rep.case(
                                                || {
                                                    format!(
                                                        "n={n} rank={rank} a(base2k={ab_b2k},size={a_size}) b(size={b_size}) res(base2k={res_b2k},size={res_size}) cnv_offset={off}"
                                                    )
                                                },
                                                || {
                                                    let bytes = module.glwe_tensor_apply_tmp_bytes(&res, &a, &b);
                                                    let mut scratch = ScratchOwned::<BE>::alloc(bytes);
                                                    if add_assign {
                                                        module.glwe_tensor_apply_add_assign(
                                                            off,
                                                            &mut res,
                                                            &a,
                                                            a_size * ab_b2k,
                                                            &b,
                                                            (b_size - 1) * ab_b2k + 1,
                                                            scratch.borrow(),
                                                        );
                                                    } else {
                                                        module.glwe_tensor_apply(
                                                            off,
                                                            &mut res,
                                                            &a,
                                                            a_size * ab_b2k,
                                                            &b,
                                                            (b_size - 1) * ab_b2k + 1,
                                                            scratch.borrow(),
                                                        );
                                                    }
                                                },
                                            );
                                        }
                                    }
                                }
                            }
                        }
                    }
                }
                rep.finish();
            }

            #[test]
            fn glwe_tensor_apply() {
                tensor_apply(false)
            }

            #[test]
            fn glwe_tensor_apply_add_assign() {
                tensor_apply(true)
            }

            #[test]
            fn glwe_tensor_square_apply() {
                let mut rep = Report::new("glwe_tensor_square_apply", BEN);
                let mut src = Source::new([8u8; 32]);
                for n in NS {
                    let module = Module::<BE>::new(n as u64);
                    for rank in 1..=2usize {
                        for (a_b2k, res_b2k) in B2K_PAIRS {
                            for a_size in 1..=5usize {
                                let a = glwe(n, a_b2k, a_size, rank, &mut src);
                                for res_size in 1..=5usize {
                                    let mut res: GLWETensor<Vec<u8>> =
                                        GLWETensor::alloc(n.into(), res_b2k.into(), (res_size * res_b2k).into(), rank.into());
                                    for off in offsets(a_b2k, 2 * a_size) {
                                        rep.case(
                                            || {
                                                format!(
                                                    "n={n} rank={rank} a(base2k={a_b2k},size={a_size}) res(base2k={res_b2k},size={res_size}) cnv_offset={off}"
                                                )
                                            },
                                            || {
                                                let bytes = module.glwe_tensor_square_apply_tmp_bytes(&res, &a);
                                                let mut scratch = ScratchOwned::<BE>::alloc(bytes);
                                                module.glwe_tensor_square_apply(
                                                    off,
                                                    &mut res,
                                                    &a,
                                                    (a_size - 1) * a_b2k + 1,
                                                    scratch.borrow(),
                                                );
                                            },
                                        );
                                    }
                                }
                            }
                        }
                    }
                }
                rep.finish();
            }

            #[test]
            fn glwe_tensor_relinearize() {
                let mut rep = Report::new("glwe_tensor_relinearize", BEN);
                let mut src = Source::new([9u8; 32]);
                // (tensor base2k, key base2k, res base2k)
                let b2ks: [(usize, usize, usize); 5] = [(12, 12, 12), (11, 12, 12), (12, 12, 11), (11, 12, 10), (12, 17, 12)];
                for n in NS {
                    let module = Module::<BE>::new(n as u64);
                    for rank in 1..=2usize {
                        for (a_b2k, key_b2k, res_b2k) in b2ks {
                            for dsize in 1..=2usize {
                                for key_size in dsize + 1..=5usize {
                                    let dnum_max = key_size / dsize;
                                    let mut dnums = vec![1usize, dnum_max];
                                    dnums.dedup();
                                    for dnum in dnums {
                                        let tsk_infos = GLWETensorKeyLayout {
                                            n: n.into(),
                                            base2k: key_b2k.into(),
                                            k: (key_size * key_b2k).into(),
                                            rank: rank.into(),
                                            dnum: Dnum(dnum as u32),
                                            dsize: Dsize(dsize as u32),
                                        };
                                        // An all-zero prepared key is a valid operand for this purpose.
                                        let tsk: GLWETensorKeyPrepared<DeviceBuf<BE>, BE> =
                                            module.alloc_tensor_key_prepared_from_infos(&tsk_infos);
                                        for a_size in 1..=5usize {
                                            let mut a: GLWETensor<Vec<u8>> =
                                                GLWETensor::alloc(n.into(), a_b2k.into(), (a_size * a_b2k).into(), rank.into());
                                            a.data_mut().fill_uniform(a_b2k, &mut src);
                                            for res_size in 1..=5usize {
                                                let mut res = glwe(n, res_b2k, res_size, rank, &mut src);
                                                rep.case(
                                                    || {
                                                        format!(
                                                            "n={n} rank={rank} a(base2k={a_b2k},size={a_size}) tsk(base2k={key_b2k},size={key_size},dnum={dnum},dsize={dsize}) res(base2k={res_b2k},size={res_size})"
                                                        )
                                                    },
                                                    || {
                                                        let bytes = module.glwe_tensor_relinearize_tmp_bytes(&res, &a, &tsk);
                                                        let mut scratch = ScratchOwned::<BE>::alloc(bytes);
                                                        module.glwe_tensor_relinearize(&mut res, &a, &tsk, tsk.size(), scratch.borrow());
                                                    },
                                                );
                                            }
                                        }
                                    }
                                }
                            }
                        }
                    }
                }
                rep.finish();
            }

            // ------------------------------------------------------------------ rotate / shift / normalize

            #[test]
            fn glwe_rotate_shift_normalize() {
                let mut rep = Report::new("glwe_rotate_assign / glwe_rsh / glwe_lsh* / glwe_normalize*", BEN);
                let mut src = Source::new([10u8; 32]);
                for n in NS {
                    let module = Module::<BE>::new(n as u64);
                    for rank in 1..=2usize {
                        for (a_b2k, res_b2k) in B2K_PAIRS {
                            for a_size in 1..=5usize {
                                let a = glwe(n, a_b2k, a_size, rank, &mut src);
                                let a_same = glwe(n, res_b2k, a_size, rank, &mut src);
                                for res_size in 1..=5usize {
                                    let mut res = glwe(n, res_b2k, res_size, rank, &mut src);
                                    rep.case(
                                        || format!("normalize n={n} rank={rank} a(base2k={a_b2k},size={a_size}) res(base2k={res_b2k},size={res_size})"),
                                        || {
                                            let mut scratch = ScratchOwned::<BE>::alloc(module.glwe_normalize_tmp_bytes());
                                            module.glwe_normalize(&mut res, &a, scratch.borrow());
                                        },
                                    );
                                    rep.case(
                                        || format!("normalize_assign n={n} rank={rank} res(base2k={res_b2k},size={res_size})"),
                                        || {
                                            let mut scratch = ScratchOwned::<BE>::alloc(module.glwe_normalize_tmp_bytes());
                                            module.glwe_normalize_assign(&mut res, scratch.borrow());
                                        },
                                    );
                                    for k in [-(n as i64) - 1, -1, 0, 1, 3, n as i64, 2 * n as i64 - 1] {
                                        rep.case(
                                            || format!("rotate_assign n={n} rank={rank} res(base2k={res_b2k},size={res_size}) k={k}"),
                                            || {
                                                let mut scratch = ScratchOwned::<BE>::alloc(module.glwe_rotate_tmp_bytes());
                                                module.glwe_rotate_assign(k, &mut res, scratch.borrow());
                                            },
                                        );
                                    }
                                    for k in offsets(res_b2k, res_size) {
                                        let sh = || ScratchOwned::<BE>::alloc(module.glwe_shift_tmp_bytes());
                                        rep.case(
                                            || format!("rsh n={n} rank={rank} res(base2k={res_b2k},size={res_size}) k={k}"),
                                            || module.glwe_rsh(k, &mut res, sh().borrow()),
                                        );
                                        rep.case(
                                            || format!("lsh_assign n={n} rank={rank} res(base2k={res_b2k},size={res_size}) k={k}"),
                                            || module.glwe_lsh_assign(&mut res, k, sh().borrow()),
                                        );
                                        rep.case(
                                            || format!("lsh n={n} rank={rank} a(size={a_size}) res(base2k={res_b2k},size={res_size}) k={k}"),
                                            || module.glwe_lsh(&mut res, &a_same, k, sh().borrow()),
                                        );
                                        rep.case(
                                            || format!("lsh_add n={n} rank={rank} a(size={a_size}) res(base2k={res_b2k},size={res_size}) k={k}"),
                                            || module.glwe_lsh_add(&mut res, &a_same, k, sh().borrow()),
                                        );
                                        rep.case(
                                            || format!("lsh_sub n={n} rank={rank} a(size={a_size}) res(base2k={res_b2k},size={res_size}) k={k}"),
                                            || module.glwe_lsh_sub(&mut res, &a_same, k, sh().borrow()),
                                        );
                                    }
                                }
                            }
                        }
                    }
                }
                rep.finish();
            }
        }
    };
}

sweep_backend!(fft64, FFT64Ref, "FFT64Ref");
sweep_backend!(ntt120, NTT120Ref, "NTT120Ref");
