// place at poulpy-cpu-ref/tests/glwe_obs_demo.rs ; cargo test -p poulpy-cpu-ref --test glwe_obs_demo --offline
// Before fix 761da68: glwe_negate of a base2k=12 operand into a base2k=17 result returned normally and res.base2k() stayed 17 (limbs in radix 12).
// Before fix fac16d7: glwe_lsh with a.rank()=0 < res.rank()=1 panicked "cols: 1 >= self.cols(): 1" although `assert!(res.rank() >= a.rank())` admits it.
use poulpy_core::{GLWENegate, GLWEShift, layouts::{GLWE, LWEInfos, GLWEInfos}};
use poulpy_cpu_ref::FFT64Ref;
use poulpy_hal::{api::{ModuleNew, ScratchOwnedAlloc, ScratchOwnedBorrow}, layouts::{Module, ScratchOwned, ZnxViewMut, ZnxView}};

#[test]
#[should_panic]
fn negate_rejects_radix_mismatch() {
    let module: Module<FFT64Ref> = Module::<FFT64Ref>::new(8);
    let a: GLWE<Vec<u8>> = GLWE::alloc(8u32.into(), 12u32.into(), 24u32.into(), 1u32.into());
    let mut res: GLWE<Vec<u8>> = GLWE::alloc(8u32.into(), 17u32.into(), 34u32.into(), 1u32.into());
    module.glwe_negate(&mut res, &a);
}

#[test]
fn lsh_lower_rank_operand() {
    let module: Module<FFT64Ref> = Module::<FFT64Ref>::new(8);
    let mut a: GLWE<Vec<u8>> = GLWE::alloc(8u32.into(), 12u32.into(), 24u32.into(), 0u32.into());
    a.data_mut().at_mut(0, 1)[0] = 5;
    let mut res: GLWE<Vec<u8>> = GLWE::alloc(8u32.into(), 12u32.into(), 24u32.into(), 1u32.into());
    res.data_mut().at_mut(1, 0)[3] = 77; // stale content in the column a lacks
    let mut scratch: ScratchOwned<FFT64Ref> = ScratchOwned::alloc(module.glwe_shift_tmp_bytes());
    module.glwe_lsh(&mut res, &a, 3, scratch.borrow());
    assert_eq!(res.rank().0, 1);
    assert_eq!(res.data().at(0, 1)[0], 40);
    assert_eq!(res.data().at(1, 0)[3], 0);
    module.glwe_lsh_add(&mut res, &a, 3, scratch.borrow());
    assert_eq!(res.data().at(0, 1)[0], 80);
    module.glwe_lsh_sub(&mut res, &a, 3, scratch.borrow());
    assert_eq!(res.data().at(0, 1)[0], 40);
}
