// Native demonstration of the defect repaired by /repo commit ac0356b (place in poulpy-cpu-ref/tests/ and run with cargo test).
// Before the fix the second assertion fails with left: 0.0, right: 3.0.
use poulpy_cpu_ref::{FFT64Ref, layouts::{ZnxView, ZnxViewMut}, reference::fft64::vec_znx_dft::vec_znx_dft_add_scaled_assign};
#[test]
fn add_scaled_drops_a_limb() {
    // a has 3 limbs (ones, twos, threes), res has 2 limbs (zero); res += a * 2^(1*base2k): res[0] += a[1], res[1] += a[2]
    let n = 8;
    let mut a = poulpy_cpu_ref::layouts::VecZnxDftOwned::<FFT64Ref>::alloc(n, 1, 3);
    let mut res = poulpy_cpu_ref::layouts::VecZnxDftOwned::<FFT64Ref>::alloc(n, 1, 2);
    for j in 0..3 { a.at_mut(0, j).iter_mut().for_each(|x| *x = (j + 1) as f64); }
    vec_znx_dft_add_scaled_assign::<_, _, FFT64Ref>(&mut res, 0, &a, 0, 1);
    assert_eq!(res.at(0, 0)[0], 2.0);
    assert_eq!(res.at(0, 1)[0], 3.0, "limb 2 of a must land in limb 1 of res");
}
