//! Demo: `LWEDecompress::decompress_lwe` on a real LWE sample (dimension 16).
//!
//! 1. encrypt an LWE sample with `lwe_encrypt_sk`, mask drawn from `Source::new(SEED)`;
//! 2. build the matching `LWECompressed` (SEED + body coefficient of each limb) through the
//!    public serialisation API (`read_from` on a stream in the format `write_to` produces);
//! 3. decompress into a fresh `LWE` of the same dimension / base2k / k and require the result
//!    to be byte-for-byte identical to the ciphertext of step 1.

use poulpy_core::{
    EncryptionLayout, LWEEncryptSk,
    layouts::{
        Base2K, Degree, LWE, LWECompressed, LWEDecompress, LWEInfos, LWELayout, LWEPlaintext, LWESecret, TorusPrecision,
    },
};
use poulpy_cpu_ref::FFT64Ref;
use poulpy_hal::{
    api::{ModuleNew, ScratchOwnedAlloc, ScratchOwnedBorrow},
    layouts::{Module, ReaderFrom, ScratchOwned, WriterTo, ZnxInfos, ZnxView},
    source::Source,
};

const SEED: [u8; 32] = [
    0x3a, 0x11, 0xc7, 0x5e, 0x90, 0x02, 0xfd, 0x48, 0x6b, 0xa4, 0x19, 0xe3, 0x77, 0x2c, 0xd0, 0x85, 0x0f, 0xb6, 0x51, 0x9d, 0x24,
    0xea, 0x73, 0x08, 0xcc, 0x35, 0x8e, 0x47, 0xf1, 0x60, 0xab, 0x1d,
];

#[test]
fn decompress_lwe_reproduces_lwe_encrypt_sk() {
    let n_lwe: Degree = Degree(16);
    let base2k: Base2K = Base2K(14);
    let k: TorusPrecision = TorusPrecision(42); // 3 limbs

    let module: Module<FFT64Ref> = Module::<FFT64Ref>::new(16);

    let lwe_infos = EncryptionLayout::new_from_default_sigma(LWELayout { n: n_lwe, base2k, k }).unwrap();

    let mut source_xs: Source = Source::new([7u8; 32]);
    let mut source_xe: Source = Source::new([9u8; 32]);
    let mut source_xa: Source = Source::new(SEED);

    let mut sk: LWESecret<Vec<u8>> = LWESecret::alloc(n_lwe);
    sk.fill_ternary_prob(0.5, &mut source_xs);

    let mut pt: LWEPlaintext<Vec<u8>> = LWEPlaintext::alloc_from_infos(&lwe_infos);
    pt.encode_i64(17, TorusPrecision(8));

    let mut scratch: ScratchOwned<FFT64Ref> = ScratchOwned::alloc(module.lwe_encrypt_sk_tmp_bytes(&lwe_infos));

    // --- step 1: reference ciphertext -------------------------------------------------------
    let mut ct: LWE<Vec<u8>> = LWE::alloc_from_infos(&lwe_infos);
    module.lwe_encrypt_sk(&mut ct, &pt, &sk, &lwe_infos, &mut source_xe, &mut source_xa, scratch.borrow());

    let size: usize = ct.size();
    assert_eq!(size, 3);
    assert_eq!(ct.n(), n_lwe);
    assert_eq!(ct.data().n(), n_lwe.0 as usize + 1);
    // sanity: the sample is not trivial (mask and body are non-zero)
    assert!((0..size).any(|i| ct.data().at(0, i)[0] != 0));
    assert!((0..size).all(|i| ct.data().at(0, i)[1..].iter().any(|&x| x != 0)));

    // --- step 2: matching LWECompressed, through the public (de)serialisation API ------------
    // Format of `LWECompressed::write_to`:
    //   k: u32 LE | base2k: u32 LE | seed: 32 bytes | VecZnx { n, cols, size, max_size, len: u64 LE ; coeffs: i64 LE }
    let mut bytes: Vec<u8> = Vec::new();
    bytes.extend_from_slice(&k.0.to_le_bytes());
    bytes.extend_from_slice(&base2k.0.to_le_bytes());
    bytes.extend_from_slice(&SEED);
    bytes.extend_from_slice(&1u64.to_le_bytes()); // n (ring degree of the body) = 1
    bytes.extend_from_slice(&1u64.to_le_bytes()); // cols
    bytes.extend_from_slice(&(size as u64).to_le_bytes()); // size
    bytes.extend_from_slice(&(size as u64).to_le_bytes()); // max_size
    bytes.extend_from_slice(&((size * 8) as u64).to_le_bytes()); // payload length in bytes
    for i in 0..size {
        bytes.extend_from_slice(&ct.data().at(0, i)[0].to_le_bytes()); // body of limb i
    }

    let mut compressed: LWECompressed<Vec<u8>> = LWECompressed::alloc(base2k, k);
    compressed.read_from(&mut bytes.as_slice()).unwrap();

    // round-trip check: the object we built serialises back to exactly the stream we assembled
    let mut bytes_back: Vec<u8> = Vec::new();
    compressed.write_to(&mut bytes_back).unwrap();
    assert_eq!(bytes, bytes_back);
    assert_eq!(compressed.n(), Degree(1)); // the compressed form carries no LWE dimension
    assert_eq!(compressed.base2k(), base2k);
    assert_eq!(compressed.size(), size);

    // --- step 3: decompress and compare --------------------------------------------------------
    let mut res: LWE<Vec<u8>> = LWE::alloc(n_lwe, base2k, k);
    module.decompress_lwe(&mut res, &compressed);

    for i in 0..size {
        assert_eq!(res.data().at(0, i), ct.data().at(0, i), "limb {i} differs");
    }
    let (mut ser_res, mut ser_ct): (Vec<u8>, Vec<u8>) = (Vec::new(), Vec::new());
    res.write_to(&mut ser_res).unwrap();
    ct.write_to(&mut ser_ct).unwrap();
    assert_eq!(ser_res, ser_ct, "decompressed LWE is not byte-identical to the lwe_encrypt_sk output");
    assert!(res == ct);
}
