// cnv_apply_dft / cnv_pairwise_apply_dft into column 1 of a two-column destination must give what a one-column destination gets, and leave column 0 alone
use poulpy_cpu_ref::{FFT64Ref, NTT120Ref};
use poulpy_hal::api::*;
use poulpy_hal::layouts::*;
use poulpy_hal::source::Source;

fn run<BE: Backend>(n: usize, base2k: usize)
where
    Module<BE>: ModuleNew<BE> + ModuleN + Convolution<BE> + CnvPVecAlloc<BE> + VecZnxDftAlloc<BE> + VecZnxIdftApplyTmpA<BE> + VecZnxBigNormalize<BE> + VecZnxBigNormalizeTmpBytes + VecZnxBigAlloc<BE>,
    ScratchOwned<BE>: ScratchOwnedAlloc<BE> + ScratchOwnedBorrow<BE>,
{
    let module: Module<BE> = Module::<BE>::new(n as u64);
    let mut source = Source::new([3u8; 32]);
    let (a_size, b_size) = (2usize, 2usize);
    let res_size = 3usize;
    let mut a: VecZnx<Vec<u8>> = VecZnx::alloc(n, 2, a_size);
    let mut b: VecZnx<Vec<u8>> = VecZnx::alloc(n, 2, b_size);
    a.fill_uniform(base2k, &mut source);
    b.fill_uniform(base2k, &mut source);
    let mut a_prep = module.cnv_pvec_left_alloc(2, a_size);
    let mut b_prep = module.cnv_pvec_right_alloc(2, b_size);
    let mut scratch: ScratchOwned<BE> = ScratchOwned::alloc(1 << 20);
    module.cnv_prepare_left(&mut a_prep, &a, !0i64, scratch.borrow());
    module.cnv_prepare_right(&mut b_prep, &b, !0i64, scratch.borrow());
    for pairwise in [false, true] {
        for cnv_offset in 0..res_size {
            // reference: one-column destination
            let mut r1 = module.vec_znx_dft_alloc(1, res_size);
            // two-column destination, column 0 pre-filled with a recognisable product
            let mut r2 = module.vec_znx_dft_alloc(2, res_size);
            module.cnv_apply_dft(0, &mut r2, 0, &a_prep, 1, &b_prep, 1, scratch.borrow());
            let mut col0_before: VecZnx<Vec<u8>> = VecZnx::alloc(n, 1, res_size);
            let mut big = module.vec_znx_big_alloc(2, res_size);
            {
                let mut r2c = module.vec_znx_dft_alloc(2, res_size);
                module.cnv_apply_dft(0, &mut r2c, 0, &a_prep, 1, &b_prep, 1, scratch.borrow());
                module.vec_znx_idft_apply_tmpa(&mut big, 0, &mut r2c, 0);
                module.vec_znx_big_normalize(&mut col0_before, base2k, 0, 0, &big, base2k, 0, scratch.borrow());
            }
            if pairwise {
                module.cnv_pairwise_apply_dft(cnv_offset, &mut r1, 0, &a_prep, &b_prep, 0, 1, scratch.borrow());
                module.cnv_pairwise_apply_dft(cnv_offset, &mut r2, 1, &a_prep, &b_prep, 0, 1, scratch.borrow());
            } else {
                module.cnv_apply_dft(cnv_offset, &mut r1, 0, &a_prep, 0, &b_prep, 1, scratch.borrow());
                module.cnv_apply_dft(cnv_offset, &mut r2, 1, &a_prep, 0, &b_prep, 1, scratch.borrow());
            }
            let mut want: VecZnx<Vec<u8>> = VecZnx::alloc(n, 1, res_size);
            let mut have: VecZnx<Vec<u8>> = VecZnx::alloc(n, 1, res_size);
            let mut col0_after: VecZnx<Vec<u8>> = VecZnx::alloc(n, 1, res_size);
            let mut big1 = module.vec_znx_big_alloc(1, res_size);
            module.vec_znx_idft_apply_tmpa(&mut big1, 0, &mut r1, 0);
            module.vec_znx_big_normalize(&mut want, base2k, 0, 0, &big1, base2k, 0, scratch.borrow());
            module.vec_znx_idft_apply_tmpa(&mut big, 1, &mut r2, 1);
            module.vec_znx_big_normalize(&mut have, base2k, 0, 0, &big, base2k, 1, scratch.borrow());
            module.vec_znx_idft_apply_tmpa(&mut big, 0, &mut r2, 0);
            module.vec_znx_big_normalize(&mut col0_after, base2k, 0, 0, &big, base2k, 0, scratch.borrow());
            assert_eq!(want, have, "pairwise={pairwise} cnv_offset={cnv_offset}: column 1 of a two-column destination differs from the one-column result");
            assert_eq!(col0_before, col0_after, "pairwise={pairwise} cnv_offset={cnv_offset}: column 0 was overwritten");
        }
    }
}
#[test]
fn fft64_ref_two_column_destination() { run::<FFT64Ref>(16, 12); }
#[test]
fn ntt120_ref_two_column_destination() { run::<NTT120Ref>(16, 12); }
