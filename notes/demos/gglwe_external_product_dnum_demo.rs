//! Demo: `GGLWEExternalProduct::gglwe_external_product` (GGLWE x GGSW) with a destination that has
//! STRICTLY MORE rows than the input (`res.dnum() > a.dnum()`).
//!
//! `gglwe_external_product_default` has no assert relating `res.dnum()` to `a.dnum()` and ends with a
//! loop that zero-fills rows `res.dnum().min(a.dnum())..res.dnum()` of `res`, i.e. it intends to support
//! this case (like `ggsw_external_product_default`, which bounds its first loop by `min_dnum`).
//! But its first loop runs over `0..res.dnum()` and indexes `a.at(row, col)` for rows `a` does not have.
//!
//! Modelled on `poulpy_core::test_suite::external_product::test_gglwe_switching_key_external_product`.
//! Public API only.

use poulpy_core::{
    DEFAULT_SIGMA_XE, EncryptionLayout, GGLWEExternalProduct, GGLWENoise, GGSWEncryptSk, GLWESwitchingKeyEncryptSk,
    layouts::{
        GGLWEInfos, GGSW, GGSWLayout, GGSWPreparedFactory, GLWESecret, GLWESecretPreparedFactory, GLWESwitchingKey,
        GLWESwitchingKeyLayout,
        prepared::{GGSWPrepared, GLWESecretPrepared},
    },
};
use poulpy_cpu_ref::FFT64Ref;
use poulpy_hal::{
    api::{ModuleNew, ScratchOwnedAlloc, ScratchOwnedBorrow, VecZnxRotateAssign},
    layouts::{DeviceBuf, Module, ScalarZnx, ScalarZnxToMut, ScratchOwned, ZnxView, ZnxViewMut},
    source::Source,
};

type BE = FFT64Ref;

/// Verbatim copy of the crate-private `poulpy_core::noise::noise_ggsw_product` (the bound used by the
/// existing test), so that this file stays public-API only.
#[allow(clippy::too_many_arguments)]
fn noise_ggsw_product(
    n: f64,
    base2k: usize,
    var_xs: f64,
    var_msg: f64,
    var_a0_err: f64,
    var_a1_err: f64,
    var_gct_err_lhs: f64,
    var_gct_err_rhs: f64,
    rank: f64,
    k_in: usize,
    k_ggsw: usize,
) -> f64 {
    let a_logq: usize = k_in.min(k_ggsw);
    let a_cols: usize = a_logq.div_ceil(base2k);

    let b_scale: f64 = (k_ggsw as f64).exp2();
    let a_scale: f64 = ((k_ggsw - a_logq) as f64).exp2();

    let base: f64 = (base2k as f64).exp2();
    let var_base: f64 = base * base / 12f64;

    let mut noise: f64 = (rank + 1.0) * (a_cols as f64) * n * var_base * (var_gct_err_lhs + var_xs * var_gct_err_rhs);
    noise += var_msg * var_a0_err * a_scale * a_scale * n;
    noise += var_msg * var_a1_err * a_scale * a_scale * n * var_xs * rank;
    noise = noise.sqrt();
    noise /= b_scale;
    noise.log2().min(-1.0)
}

fn max_usize(xs: &[usize]) -> usize {
    xs.iter().copied().max().unwrap()
}

#[test]
fn gglwe_external_product_res_has_more_rows_than_a() {
    let n: usize = 64;
    let module: Module<BE> = Module::<BE>::new(n as u64);

    // Same parameter derivation as the existing test with TestParams { base2k: 17 }, dsize = 1.
    let base2k: usize = 17;
    let in_base2k: usize = base2k - 1;
    let key_base2k: usize = base2k;
    let out_base2k: usize = in_base2k; // MUST BE SAME
    let k_in: usize = 4 * in_base2k + 1;
    let dsize: usize = 1;
    let k_ggsw: usize = k_in + key_base2k * dsize;
    let k_out: usize = k_in;
    let dnum_ggsw: usize = k_in.div_ceil(key_base2k * dsize);
    let dsize_in: usize = 1;

    // The point of the demo: the destination has strictly more rows than the input.
    let dnum_a: usize = 2;
    let dnum_res: usize = 3;

    for rank_in in 1_usize..3 {
        for rank_out in 1_usize..3 {
            println!("--- rank_in={rank_in} rank_out={rank_out} a.dnum={dnum_a} res.dnum={dnum_res}");

            let gglwe_in_infos = EncryptionLayout::new_from_default_sigma(GLWESwitchingKeyLayout {
                n: n.into(),
                base2k: in_base2k.into(),
                k: k_in.into(),
                dnum: dnum_a.into(),
                dsize: dsize_in.into(),
                rank_in: rank_in.into(),
                rank_out: rank_out.into(),
            })
            .unwrap();

            let gglwe_out_infos: GLWESwitchingKeyLayout = GLWESwitchingKeyLayout {
                n: n.into(),
                base2k: out_base2k.into(),
                k: k_out.into(),
                dnum: dnum_res.into(), // <-- more rows than `a`
                dsize: dsize_in.into(),
                rank_in: rank_in.into(),
                rank_out: rank_out.into(),
            };

            let ggsw_infos = EncryptionLayout::new_from_default_sigma(GGSWLayout {
                n: n.into(),
                base2k: key_base2k.into(),
                k: k_ggsw.into(),
                dnum: dnum_ggsw.into(),
                dsize: dsize.into(),
                rank: rank_out.into(),
            })
            .unwrap();

            let mut ct_gglwe_in: GLWESwitchingKey<Vec<u8>> = GLWESwitchingKey::alloc_from_infos(&gglwe_in_infos);
            let mut ct_gglwe_out: GLWESwitchingKey<Vec<u8>> = GLWESwitchingKey::alloc_from_infos(&gglwe_out_infos);
            let mut ct_rgsw: GGSW<Vec<u8>> = GGSW::alloc_from_infos(&ggsw_infos);

            assert_eq!(ct_gglwe_in.dnum().as_usize(), dnum_a);
            assert_eq!(ct_gglwe_out.dnum().as_usize(), dnum_res);
            assert!(ct_gglwe_out.dnum() > ct_gglwe_in.dnum());

            let mut pt_rgsw: ScalarZnx<Vec<u8>> = ScalarZnx::alloc(n, 1);

            let mut source_xs: Source = Source::new([0u8; 32]);
            let mut source_xe: Source = Source::new([0u8; 32]);
            let mut source_xa: Source = Source::new([0u8; 32]);

            // General purpose scratch (key generation, prepare, noise measurement).
            let mut scratch: ScratchOwned<BE> = ScratchOwned::alloc(max_usize(&[
                module.glwe_switching_key_encrypt_sk_tmp_bytes(&gglwe_in_infos),
                module.ggsw_encrypt_sk_tmp_bytes(&ggsw_infos),
                module.ggsw_prepare_tmp_bytes(&ggsw_infos),
                module.gglwe_noise_tmp_bytes(&gglwe_in_infos),
                module.gglwe_noise_tmp_bytes(&gglwe_out_infos),
                1 << 16,
            ]));

            // Scratch for the call under test: exactly what the function's `_tmp_bytes` asks for.
            let mut scratch_ep: ScratchOwned<BE> =
                ScratchOwned::alloc(module.gglwe_external_product_tmp_bytes(&gglwe_out_infos, &gglwe_in_infos, &ggsw_infos));

            let r: usize = 1;
            pt_rgsw.to_mut().raw_mut()[r] = 1; // X^{r}

            let var_xs: f64 = 0.5;

            let mut sk_in: GLWESecret<Vec<u8>> = GLWESecret::alloc(n.into(), rank_in.into());
            sk_in.fill_ternary_prob(var_xs, &mut source_xs);

            let mut sk_out: GLWESecret<Vec<u8>> = GLWESecret::alloc(n.into(), rank_out.into());
            sk_out.fill_ternary_prob(var_xs, &mut source_xs);

            // `GLWESecret::data` is pub(crate); mirror the coefficients of sk_in through the public API:
            // GLWESecret::fill_ternary_prob calls ScalarZnx::fill_ternary_prob(col, prob, source) for col in 0..rank,
            // and sk_in is the first consumer of source_xs, so a fresh source with the same seed reproduces it.
            let mut sk_in_pt: ScalarZnx<Vec<u8>> = ScalarZnx::alloc(n, rank_in);
            {
                let mut source_xs_mirror: Source = Source::new([0u8; 32]);
                (0..rank_in).for_each(|i| sk_in_pt.fill_ternary_prob(i, var_xs, &mut source_xs_mirror));
            }

            let mut sk_out_prepared: GLWESecretPrepared<DeviceBuf<BE>, BE> = module.glwe_secret_prepared_alloc(rank_out.into());
            module.glwe_secret_prepare(&mut sk_out_prepared, &sk_out);

            // gglwe_{s1}(s0) = s0 -> s1
            module.glwe_switching_key_encrypt_sk(
                &mut ct_gglwe_in,
                &sk_in,
                &sk_out,
                &gglwe_in_infos,
                &mut source_xe,
                &mut source_xa,
                scratch.borrow(),
            );

            // Sanity check of the mirrored secret: `a` must be a fresh encryption of sk_in_pt under sk_out.
            for row in 0..dnum_a {
                for col in 0..rank_in {
                    let noise_a: f64 = module
                        .gglwe_noise(&ct_gglwe_in, row, col, &sk_in_pt, &sk_out_prepared, scratch.borrow())
                        .std()
                        .log2();
                    assert!(
                        noise_a <= -(k_in as f64) + DEFAULT_SIGMA_XE.log2() + 1.0,
                        "mirror of sk_in is wrong: input key noise {noise_a} (row={row}, col={col})"
                    );
                }
            }

            module.ggsw_encrypt_sk(
                &mut ct_rgsw,
                &pt_rgsw,
                &sk_out_prepared,
                &ggsw_infos,
                &mut source_xe,
                &mut source_xa,
                scratch.borrow(),
            );

            let mut ct_rgsw_prepared: GGSWPrepared<DeviceBuf<BE>, BE> = module.ggsw_prepared_alloc_from_infos(&ct_rgsw);
            module.ggsw_prepare(&mut ct_rgsw_prepared, &ct_rgsw, scratch.borrow());

            // Pre-fill EVERY cell of the destination with non-zero garbage.
            for row in 0..dnum_res {
                for col in 0..rank_in {
                    let mut cell = ct_gglwe_out.at_mut(row, col);
                    cell.data_mut()
                        .raw_mut()
                        .iter_mut()
                        .enumerate()
                        .for_each(|(i, x)| *x = 0x1234_5678_i64 + i as i64);
                }
            }
            for row in 0..dnum_res {
                for col in 0..rank_in {
                    assert!(ct_gglwe_out.at(row, col).data().raw().iter().all(|&x| x != 0));
                }
            }

            // (i) The call under test: gglwe_(m) (x) RGSW_(X^k) = gglwe_(m * X^k), res.dnum() > a.dnum().
            // No documented/asserted precondition forbids this, so it must return without panicking.
            module.gglwe_external_product(&mut ct_gglwe_out, &ct_gglwe_in, &ct_rgsw_prepared, scratch_ep.borrow());
            println!("    gglwe_external_product returned");

            // sk_in * X^{r}
            (0..rank_in).for_each(|i| {
                module.vec_znx_rotate_assign(r as i64, &mut sk_in_pt.as_vec_znx_mut(), i, scratch.borrow());
            });

            let var_gct_err_lhs: f64 = DEFAULT_SIGMA_XE * DEFAULT_SIGMA_XE;
            let var_gct_err_rhs: f64 = 0f64;

            let var_msg: f64 = 1f64 / n as f64; // X^{k}
            let var_a0_err: f64 = DEFAULT_SIGMA_XE * DEFAULT_SIGMA_XE;
            let var_a1_err: f64 = 1f64 / 12f64;

            let max_noise: f64 = noise_ggsw_product(
                n as f64,
                key_base2k * dsize,
                var_xs,
                var_msg,
                var_a0_err,
                var_a1_err,
                var_gct_err_lhs,
                var_gct_err_rhs,
                rank_out as f64,
                k_in,
                k_ggsw,
            ) + 0.5;

            // (ii) Rows shared with `a` hold the product (same noise check as the existing test).
            for row in 0..dnum_a {
                for col in 0..rank_in {
                    let noise_have: f64 = module
                        .gglwe_noise(&ct_gglwe_out, row, col, &sk_in_pt, &sk_out_prepared, scratch.borrow())
                        .std()
                        .log2();
                    println!("    row={row} col={col} noise_have={noise_have:.3} max_noise={max_noise:.3}");
                    assert!(
                        noise_have <= max_noise,
                        "row={row} col={col}: noise_have:{noise_have} > noise_max:{max_noise}"
                    );
                }
            }

            // (iii) Every extra row of res is all zero.
            for row in dnum_a..dnum_res {
                for col in 0..rank_in {
                    let cell = ct_gglwe_out.at(row, col);
                    let nonzero: usize = cell.data().raw().iter().filter(|&&x| x != 0).count();
                    println!("    extra row={row} col={col}: {nonzero} non-zero coefficients");
                    assert_eq!(nonzero, 0, "extra row={row} col={col} of res is not zero-filled");
                }
            }
        }
    }
}
