// Seed demo for property C07 (DFT-domain products equal exact negacyclic convolution).
//
// Place this file at:   poulpy-cpu-ref/tests/seed_demo.rs
// Run with:             cargo test -p poulpy-cpu-ref --test seed_demo --offline -j 4
//
// It checks vmp_apply_dft_to_dft (NTT120Ref, public HAL traits on Module) against an exact
// i128 schoolbook negacyclic "sum of row products" oracle, for prepared matrices whose
// total column count (cols_out * size) is ODD and for result vectors that are TRUNCATED
// to an odd number of columns strictly smaller than that of the matrix, with >= 2 rows.

use poulpy_cpu_ref::NTT120Ref;
use poulpy_hal::{
    api::{
        ModuleNew, ScratchOwnedAlloc, ScratchOwnedBorrow, VecZnxDftAlloc, VecZnxDftApply, VecZnxIdftApplyConsume,
        VmpApplyDftToDft, VmpApplyDftToDftTmpBytes, VmpPMatAlloc, VmpPrepare, VmpPrepareTmpBytes,
    },
    layouts::{MatZnx, Module, ScratchOwned, VecZnx, ZnxInfos, ZnxView, ZnxViewMut},
};

fn lcg(state: &mut u64) -> i64 {
    *state = state.wrapping_mul(6364136223846793005).wrapping_add(1442695040888963407);
    // signed 12-bit digit
    (((*state >> 33) & 0xFFF) as i64) - 2048
}

fn negacyclic_acc(acc: &mut [i128], a: &[i64], b: &[i64]) {
    let n = a.len();
    for i in 0..n {
        for j in 0..n {
            let p = a[i] as i128 * b[j] as i128;
            if i + j < n {
                acc[i + j] += p;
            } else {
                acc[i + j - n] -= p;
            }
        }
    }
}

#[allow(clippy::too_many_arguments)]
fn check(n: usize, rows: usize, cols_in: usize, cols_out: usize, mat_size: usize, a_size: usize, res_size: usize) {
    let module: Module<NTT120Ref> = Module::<NTT120Ref>::new(n as u64);
    let mut st: u64 = 0x1234_5678_9abc_def0 ^ ((rows * 131 + cols_out * 17 + mat_size * 5 + res_size) as u64);

    let mut a: VecZnx<Vec<u8>> = VecZnx::alloc(n, cols_in, a_size);
    for j in 0..cols_in {
        for i in 0..a_size {
            a.at_mut(j, i).iter_mut().for_each(|x| *x = lcg(&mut st));
        }
    }

    let mut mat: MatZnx<Vec<u8>> = MatZnx::alloc(n, rows, cols_in, cols_out, mat_size);
    for r in 0..rows {
        for j in 0..cols_in {
            let mut v = mat.at_mut(r, j);
            for c in 0..cols_out {
                for l in 0..mat_size {
                    v.at_mut(c, l).iter_mut().for_each(|x| *x = lcg(&mut st));
                }
            }
        }
    }

    let mut scratch: ScratchOwned<NTT120Ref> = ScratchOwned::alloc(
        module
            .vmp_prepare_tmp_bytes(rows, cols_in, cols_out, mat_size)
            .max(module.vmp_apply_dft_to_dft_tmp_bytes(res_size, a_size, rows, cols_in, cols_out, mat_size)),
    );

    let mut pmat = module.vmp_pmat_alloc(rows, cols_in, cols_out, mat_size);
    module.vmp_prepare(&mut pmat, &mat, scratch.borrow());

    let mut a_dft = module.vec_znx_dft_alloc(cols_in, a_size);
    for j in 0..cols_in {
        module.vec_znx_dft_apply(1, 0, &mut a_dft, j, &a, j);
    }

    let mut res_dft = module.vec_znx_dft_alloc(cols_out, res_size);
    module.vmp_apply_dft_to_dft(&mut res_dft, &a_dft, &pmat, 0, scratch.borrow());
    let res_big = module.vec_znx_idft_apply_consume(res_dft);

    assert_eq!(res_big.cols(), cols_out);
    assert_eq!(res_big.size(), res_size);

    let row_max = a_size.min(rows);
    for c in 0..cols_out {
        for l in 0..res_size {
            let mut want = vec![0i128; n];
            if l < mat_size {
                for i in 0..row_max {
                    for j in 0..cols_in {
                        let m = mat.at(i, j);
                        negacyclic_acc(&mut want, a.at(j, i), m.at(c, l));
                    }
                }
            }
            let have: Vec<i128> = res_big.at(c, l).iter().map(|&x| x as i128).collect();
            assert_eq!(
                have, want,
                "vmp mismatch: n={n} rows={rows} cols_in={cols_in} cols_out={cols_out} mat_size={mat_size} a_size={a_size} res_size={res_size} (col={c}, limb={l})"
            );
        }
    }
}

/// Shapes already exercised by the shipped suite (res has as many limbs as the matrix).
#[test]
fn vmp_exact_full_width() {
    for cols_out in 1..=3 {
        for mat_size in 1..=4 {
            check(16, 2, 2, cols_out, mat_size, 2, mat_size);
        }
    }
}

/// Even number of matrix columns, truncated odd result.
#[test]
fn vmp_exact_truncated_even_matrix() {
    check(16, 2, 1, 1, 4, 2, 1);
    check(16, 2, 1, 1, 4, 2, 3);
    check(16, 3, 2, 3, 2, 3, 1);
}

/// Odd number of matrix columns (cols_out * size), truncated odd result, >= 2 rows.
#[test]
fn vmp_exact_truncated_odd_matrix() {
    // ncols = 3, result keeps 1 column
    check(16, 2, 1, 1, 3, 2, 1);
    // ncols = 5, result keeps 3 columns
    check(16, 3, 1, 1, 5, 3, 3);
    // ncols = 9 (rank-2 like: cols_out = 3, size = 3), result keeps 3 columns
    check(16, 2, 3, 3, 3, 2, 1);
    // larger ring
    check(64, 4, 1, 1, 3, 4, 1);
}
