//! Demo: `ggsw_keyswitch` with a destination GGSW that has strictly fewer rows
//! than the input GGSW (`res.dnum() < a.dnum()`), a call that the precondition
//! `assert!(res.dnum() <= a.dnum())` of `ggsw_keyswitch_default` admits.
//!
//! Modelled on `poulpy_core::test_suite::keyswitch::test_ggsw_keyswitch`
//! (same parameter derivation, same noise bound), public API only.
//! `noise_ggsw_keyswitch` / `var_noise_gglwe_product` are `pub(crate)` in
//! poulpy-core, so they are copied verbatim below.

use poulpy_core::{
    DEFAULT_SIGMA_XE, EncryptionLayout, GGLWEToGGSWKeyEncryptSk, GGSWEncryptSk, GGSWKeyswitch,
    GLWESwitchingKeyEncryptSk,
    layouts::{
        GGLWEToGGSWKey, GGLWEToGGSWKeyLayout, GGLWEToGGSWKeyPrepared, GGLWEToGGSWKeyPreparedFactory, GGSW, GGSWInfos, GGSWLayout,
        GLWEInfos, GLWESecret, GLWESecretPreparedFactory, LWEInfos, GLWESwitchingKey, GLWESwitchingKeyLayout,
        GLWESwitchingKeyPreparedFactory,
        prepared::{GLWESecretPrepared, GLWESwitchingKeyPrepared},
    },
};
use poulpy_cpu_ref::FFT64Ref;
use poulpy_hal::{
    api::{ModuleNew, ScratchOwnedAlloc, ScratchOwnedBorrow},
    layouts::{DeviceBuf, Module, ScalarZnx, ScratchOwned},
    source::Source,
};

type BE = FFT64Ref;

// ---- verbatim copies of poulpy-core/src/noise/mod.rs (pub(crate) there) ----

#[allow(clippy::too_many_arguments)]
fn var_noise_gglwe_product(
    n: f64,
    base2k: usize,
    var_xs: f64,
    var_msg: f64,
    var_a_err: f64,
    var_gct_err_lhs: f64,
    var_gct_err_rhs: f64,
    rank_in: f64,
    a_logq: usize,
    b_logq: usize,
) -> f64 {
    let a_logq: usize = a_logq.min(b_logq);
    let a_cols: usize = a_logq.div_ceil(base2k);

    let b_scale: f64 = (b_logq as f64).exp2();
    let a_scale: f64 = ((b_logq - a_logq) as f64).exp2();

    let base: f64 = (base2k as f64).exp2();
    let var_base: f64 = base * base / 12f64;

    let mut noise: f64 = (a_cols as f64) * n * var_base * (var_gct_err_lhs + var_xs * var_gct_err_rhs);
    noise += var_msg * var_a_err * a_scale * a_scale * n;
    noise *= rank_in;
    noise /= b_scale * b_scale;
    noise
}

#[allow(clippy::too_many_arguments)]
fn noise_ggsw_keyswitch(
    n: f64,
    base2k: usize,
    col: usize,
    var_xs: f64,
    var_a_err: f64,
    var_gct_err_lhs: f64,
    var_gct_err_rhs: f64,
    rank: f64,
    k_ct: usize,
    k_ksk: usize,
    k_tsk: usize,
) -> f64 {
    let var_si_x_sj: f64 = n * var_xs * var_xs;

    let mut noise: f64 = var_noise_gglwe_product(
        n,
        base2k,
        var_xs,
        var_xs,
        var_a_err,
        var_gct_err_lhs,
        var_gct_err_rhs,
        rank,
        k_ct,
        k_ksk,
    );

    if col > 0 {
        noise += var_noise_gglwe_product(
            n,
            base2k,
            var_xs,
            var_si_x_sj,
            var_a_err + 1f64 / 12.0,
            var_gct_err_lhs,
            var_gct_err_rhs,
            rank,
            k_ct,
            k_tsk,
        );
        noise += n * noise * var_xs * 0.5;
    }

    noise = noise.sqrt();
    noise.log2().min(-1.0)
}

// ---------------------------------------------------------------------------

/// Same body as `test_ggsw_keyswitch` (dsize = 1 only), except that the output
/// GGSW is allocated with `dnum_in - drop_rows` rows.
fn run(n: usize, base2k: usize, rank: usize, drop_rows: usize) {
    let module: Module<BE> = Module::<BE>::new(n as u64);

    let in_base2k: usize = base2k - 1;
    let key_base2k: usize = base2k;
    let out_base2k: usize = in_base2k; // MUST BE SAME
    let k_in: usize = 3 * in_base2k + 1;
    let dsize: usize = 1;

    let k_ksk: usize = k_in + key_base2k * dsize;
    let k_tsk: usize = k_ksk;
    let k_out: usize = k_ksk;

    let dnum_in: usize = k_in / in_base2k; // = 3
    let dnum_out: usize = dnum_in - drop_rows; // = 3 (control) or 2 (demo)
    let dnum_ksk: usize = k_in.div_ceil(key_base2k * dsize);
    let dsize_in: usize = 1;

    assert_eq!(dnum_in, 3);

    let ggsw_in_infos = EncryptionLayout::new_from_default_sigma(GGSWLayout {
        n: (n as u32).into(),
        base2k: (in_base2k as u32).into(),
        k: (k_in as u32).into(),
        dnum: (dnum_in as u32).into(),
        dsize: (dsize_in as u32).into(),
        rank: (rank as u32).into(),
    })
    .unwrap();

    let ggsw_out_infos: GGSWLayout = GGSWLayout {
        n: (n as u32).into(),
        base2k: (out_base2k as u32).into(),
        k: (k_out as u32).into(),
        dnum: (dnum_out as u32).into(),
        dsize: (dsize_in as u32).into(),
        rank: (rank as u32).into(),
    };

    let tsk_infos = EncryptionLayout::new_from_default_sigma(GGLWEToGGSWKeyLayout {
        n: (n as u32).into(),
        base2k: (key_base2k as u32).into(),
        k: (k_tsk as u32).into(),
        dnum: (dnum_ksk as u32).into(),
        dsize: (dsize as u32).into(),
        rank: (rank as u32).into(),
    })
    .unwrap();

    let ksk_apply_infos = EncryptionLayout::new_from_default_sigma(GLWESwitchingKeyLayout {
        n: (n as u32).into(),
        base2k: (key_base2k as u32).into(),
        k: (k_ksk as u32).into(),
        dnum: (dnum_ksk as u32).into(),
        dsize: (dsize as u32).into(),
        rank_in: (rank as u32).into(),
        rank_out: (rank as u32).into(),
    })
    .unwrap();

    let mut ggsw_in: GGSW<Vec<u8>> = GGSW::alloc_from_infos(&ggsw_in_infos);
    let mut ggsw_out: GGSW<Vec<u8>> = GGSW::alloc_from_infos(&ggsw_out_infos);
    let mut tsk: GGLWEToGGSWKey<Vec<u8>> = GGLWEToGGSWKey::alloc_from_infos(&tsk_infos);
    let mut ksk: GLWESwitchingKey<Vec<u8>> = GLWESwitchingKey::alloc_from_infos(&ksk_apply_infos);
    let mut pt_scalar: ScalarZnx<Vec<u8>> = ScalarZnx::alloc(n, 1);

    assert_eq!(ggsw_in.dnum().as_usize(), dnum_in);
    assert_eq!(ggsw_out.dnum().as_usize(), dnum_out);
    // The documented / asserted precondition of ggsw_keyswitch_default:
    assert!(ggsw_out.dnum() <= ggsw_in.dnum());
    assert_eq!(ggsw_out.dsize(), ggsw_in.dsize());
    assert_eq!(ggsw_out.base2k(), ggsw_in.base2k());

    let mut source_xs: Source = Source::new([0u8; 32]);
    let mut source_xe: Source = Source::new([0u8; 32]);
    let mut source_xa: Source = Source::new([0u8; 32]);

    let mut scratch: ScratchOwned<BE> = ScratchOwned::alloc(
        module.ggsw_encrypt_sk_tmp_bytes(&ggsw_in_infos)
            | module.glwe_switching_key_encrypt_sk_tmp_bytes(&ksk_apply_infos)
            | module.gglwe_to_ggsw_key_encrypt_sk_tmp_bytes(&tsk_infos)
            | module.ggsw_keyswitch_tmp_bytes(&ggsw_out_infos, &ggsw_in_infos, &ksk_apply_infos, &tsk_infos),
    );

    let var_xs: f64 = 0.5;

    let mut sk_in: GLWESecret<Vec<u8>> = GLWESecret::alloc((n as u32).into(), (rank as u32).into());
    sk_in.fill_ternary_prob(var_xs, &mut source_xs);

    let mut sk_in_prepared: GLWESecretPrepared<DeviceBuf<BE>, BE> = module.glwe_secret_prepared_alloc((rank as u32).into());
    module.glwe_secret_prepare(&mut sk_in_prepared, &sk_in);

    let mut sk_out: GLWESecret<Vec<u8>> = GLWESecret::alloc((n as u32).into(), (rank as u32).into());
    sk_out.fill_ternary_prob(var_xs, &mut source_xs);

    let mut sk_out_prepared: GLWESecretPrepared<DeviceBuf<BE>, BE> = module.glwe_secret_prepared_alloc((rank as u32).into());
    module.glwe_secret_prepare(&mut sk_out_prepared, &sk_out);

    module.glwe_switching_key_encrypt_sk(
        &mut ksk,
        &sk_in,
        &sk_out,
        &ksk_apply_infos,
        &mut source_xe,
        &mut source_xa,
        scratch.borrow(),
    );
    module.gglwe_to_ggsw_key_encrypt_sk(
        &mut tsk,
        &sk_out,
        &tsk_infos,
        &mut source_xe,
        &mut source_xa,
        scratch.borrow(),
    );

    pt_scalar.fill_ternary_hw(0, n, &mut source_xs);

    module.ggsw_encrypt_sk(
        &mut ggsw_in,
        &pt_scalar,
        &sk_in_prepared,
        &ggsw_in_infos,
        &mut source_xe,
        &mut source_xa,
        scratch.borrow(),
    );

    let mut ksk_prepared: GLWESwitchingKeyPrepared<DeviceBuf<BE>, BE> = module.glwe_switching_key_prepared_alloc_from_infos(&ksk);
    module.glwe_switching_key_prepare(&mut ksk_prepared, &ksk, scratch.borrow());

    let mut tsk_prepared: GGLWEToGGSWKeyPrepared<DeviceBuf<BE>, BE> = module.gglwe_to_ggsw_key_prepared_alloc_from_infos(&tsk);
    module.gglwe_to_ggsw_key_prepare(&mut tsk_prepared, &tsk, scratch.borrow());

    // The call under test: res has `dnum_out` rows, a has `dnum_in` rows.
    module.ggsw_keyswitch(&mut ggsw_out, &ggsw_in, &ksk_prepared, &tsk_prepared, scratch.borrow());

    let max_noise = |col_j: usize| -> f64 {
        noise_ggsw_keyswitch(
            n as f64,
            key_base2k * dsize,
            col_j,
            var_xs,
            0f64,
            DEFAULT_SIGMA_XE * DEFAULT_SIGMA_XE,
            0f64,
            rank as f64,
            k_in,
            k_ksk,
            k_tsk,
        ) + 0.5
    };

    for row in 0..ggsw_out.dnum().as_usize() {
        for col in 0..ggsw_out.rank().as_usize() + 1 {
            let noise = ggsw_out
                .noise(&module, row, col, &pt_scalar, &sk_out_prepared, scratch.borrow())
                .std()
                .log2();
            let max_noise = max_noise(col);
            println!("rank={rank} dnum_in={dnum_in} dnum_out={dnum_out} row={row} col={col}: noise={noise:.3} max_noise={max_noise:.3}");
            assert!(noise <= max_noise, "noise: {noise} > max_noise: {max_noise}")
        }
    }
}

/// Control: res.dnum() == a.dnum() (what the existing suite exercises).
#[test]
fn control_equal_dnum_rank1() {
    run(128, 17, 1, 0);
}

#[test]
fn control_equal_dnum_rank2() {
    run(128, 17, 2, 0);
}

/// Demo: a.dnum() = 3, res.dnum() = 2. Admitted by `assert!(res.dnum() <= a.dnum())`.
#[test]
fn fewer_rows_in_res_rank1() {
    run(128, 17, 1, 1);
}

#[test]
fn fewer_rows_in_res_rank2() {
    run(128, 17, 2, 1);
}
