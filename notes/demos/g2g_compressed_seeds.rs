// compressed GGLWE-to-GGSW key: encrypt, decompress, check noise (the test the suite defines but never registers) + owner seeds written
use poulpy_core::layouts::{Dsize, GGLWECompressedSeed, GGLWEToGGSWKeyCompressed, GGLWEToGGSWKeyLayout};
use poulpy_core::{EncryptionLayout, GGLWEToGGSWKeyCompressedEncryptSk};
use poulpy_core::layouts::GLWESecret;
use poulpy_cpu_ref::FFT64Ref;
use poulpy_hal::api::{ModuleNew, ScratchOwnedAlloc, ScratchOwnedBorrow};
use poulpy_hal::layouts::{Module, ScratchOwned};
use poulpy_hal::source::Source;

#[test]
fn owner_seeds_written() {
    let module: Module<FFT64Ref> = Module::<FFT64Ref>::new(64);
    let infos = EncryptionLayout::new_from_default_sigma(GGLWEToGGSWKeyLayout { n: 64u32.into(), base2k: 12u32.into(), k: 49u32.into(), dnum: 4u32.into(), dsize: Dsize(1), rank: 2u32.into() }).unwrap();
    let mut key: GGLWEToGGSWKeyCompressed<Vec<u8>> = GGLWEToGGSWKeyCompressed::alloc_from_infos(&infos);
    let mut scratch: ScratchOwned<FFT64Ref> = ScratchOwned::alloc(GGLWEToGGSWKeyCompressedEncryptSk::gglwe_to_ggsw_key_encrypt_sk_tmp_bytes(&module, &infos));
    let mut sk: GLWESecret<Vec<u8>> = GLWESecret::alloc_from_infos(&infos);
    sk.fill_ternary_prob(0.5, &mut Source::new([0u8; 32]));
    let mut source_xe = Source::new([0u8; 32]);
    GGLWEToGGSWKeyCompressedEncryptSk::gglwe_to_ggsw_key_encrypt_sk(&module, &mut key, &sk, [1u8; 32], &infos, &mut source_xe, scratch.borrow());
    for i in 0..2 {
        let seeds = key.at(i).seed();
        assert!(seeds.iter().any(|s| *s != [0u8; 32]), "key {i}: the owner's seeds are still all zero after encryption");
    }
}

// the body of the suite's (unregistered) test_gglwe_to_ggsw_compressed_encrypt_sk, decompressing key by key
#[test]
fn decompressed_keys_decrypt() {
    use poulpy_core::layouts::{GGLWE, GGLWEDecompress, GGLWEInfos, GGLWEToGGSWKey, GLWESecretPrepared, GLWESecretPreparedFactory, GLWESecretTensor, GLWESecretTensorFactory};
    use poulpy_core::{DEFAULT_SIGMA_XE, GGLWENoise};
    use poulpy_hal::api::VecZnxCopy;
    use poulpy_hal::layouts::{DeviceBuf, ScalarZnx};
    let module: Module<FFT64Ref> = Module::<FFT64Ref>::new(64);
    let base2k = 12usize; let k = 4 * base2k + 1;
    for rank in 1usize..3 {
        let infos = EncryptionLayout::new_from_default_sigma(GGLWEToGGSWKeyLayout { n: 64u32.into(), base2k: (base2k as u32).into(), k: (k as u32).into(), dnum: ((k / base2k) as u32).into(), dsize: Dsize(1), rank: (rank as u32).into() }).unwrap();
        let mut kc: GGLWEToGGSWKeyCompressed<Vec<u8>> = GGLWEToGGSWKeyCompressed::alloc_from_infos(&infos);
        let mut scratch: ScratchOwned<FFT64Ref> = ScratchOwned::alloc(GGLWEToGGSWKeyCompressedEncryptSk::gglwe_to_ggsw_key_encrypt_sk_tmp_bytes(&module, &infos) + (1 << 20));
        let mut sk: GLWESecret<Vec<u8>> = GLWESecret::alloc_from_infos(&infos);
        sk.fill_ternary_prob(0.5, &mut Source::new([0u8; 32]));
        let mut sk_prepared: GLWESecretPrepared<DeviceBuf<FFT64Ref>, FFT64Ref> = module.glwe_secret_prepared_alloc((rank as u32).into());
        module.glwe_secret_prepare(&mut sk_prepared, &sk);
        let mut source_xe = Source::new([0u8; 32]);
        GGLWEToGGSWKeyCompressedEncryptSk::gglwe_to_ggsw_key_encrypt_sk(&module, &mut kc, &sk, [1u8; 32], &infos, &mut source_xe, scratch.borrow());
        let mut key: GGLWEToGGSWKey<Vec<u8>> = GGLWEToGGSWKey::alloc_from_infos(&infos);
        for i in 0..rank { module.decompress_gglwe(key.at_mut(i), kc.at(i)); }
        let mut sk_tensor: GLWESecretTensor<Vec<u8>> = GLWESecretTensor::alloc_from_infos(&sk);
        module.glwe_secret_tensor_prepare(&mut sk_tensor, &sk, scratch.borrow());
        let max_noise = DEFAULT_SIGMA_XE.log2() + 0.5 - (k as f64);
        let mut pt_want: ScalarZnx<Vec<u8>> = ScalarZnx::alloc(module.n(), rank);
        for i in 0..rank {
            for j in 0..rank { module.vec_znx_copy(&mut pt_want.as_vec_znx_mut(), j, &sk_tensor.at(i, j).as_vec_znx(), 0); }
            let ksk: &GGLWE<Vec<u8>> = key.at(i);
            for row in 0..ksk.dnum().as_usize() {
                for col in 0..ksk.rank_in().as_usize() {
                    let noise_have = ksk.noise(&module, row, col, &pt_want, &sk_prepared, scratch.borrow()).std().log2();
                    assert!(noise_have <= max_noise, "rank {rank} key {i} row {row} col {col}: noise_have: {noise_have} > max_noise: {max_noise}");
                }
            }
        }
    }
}
